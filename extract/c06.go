package main

import (
	"fmt"
	"go/ast"
	"go/token"
	"sort"
	"strings"
)

// Gen/PiscesLock.lean (C06): the lock discipline of memKV, read from the AST.
//
// Per method of memKV: which lock it takes first (`b.mu.Lock()` / `b.mu.RLock()`),
// whether the matching unlock is deferred right after, whether the lock is
// touched anywhere else in the body, whether the body writes the table
// (assignment to / delete from `b.m`, assignment to an entry field, a call of a
// mutating memEntry method), which other memKV methods it calls.  Plus: every
// function of the package that touches the fields `m` / `mu` of a memKV, and
// whether memEntry.bytes hands out a copy.  The Lean obligation
// `ExclusiveRMW Gen.PiscesLock.table` is decided from these facts.

func init() {
	register("PiscesLock", genPiscesLock)
	var ts []tracked
	for _, m := range backendMethods {
		ts = append(ts, tracked{"pisces", "memKV", m})
	}
	for _, m := range []string{"keys", "classKeys", "walkKeys", "ops"} {
		ts = append(ts, tracked{"pisces", "memKV", m})
	}
	for _, m := range []string{"setBytes", "bytes", "appendBytes"} {
		ts = append(ts, tracked{"pisces", "memEntry", m})
	}
	for _, m := range []string{"Mutate", "AppendBytes", "Emplace", "Add", "AddClass", "Replace", "Remove", "GetBytes"} {
		ts = append(ts, tracked{"pisces", "KV", m})
	}
	ts = append(ts, tracked{"pisces", "", "newMemEntry"}, tracked{"pisces", "", "newMemKV"},
		tracked{"pisces", "sqlite3KV", "mutate"}, tracked{"pisces", "sqlite3KV", "add"},
		tracked{"pisces", "sqlite3KV", "emplace"}, tracked{"pisces", "sqlite3KV", "replace"},
		tracked{"pisces", "sqlite3KV", "appendBytes"}, tracked{"pisces", "sqlite3KV", "remove"},
		tracked{"pisces", "sqlite3KV", "get"}, tracked{"pisces", "", "sqlResError"},
		tracked{"sqlx", "DB", "Begin"}, tracked{"sqlx", "wrap", "X"}, tracked{"sqlx", "wrap", "Q1"})
	trackedFuncs["C06"] = ts
}

// muCall matches `<recv>.mu.<name>()`.
func muCall(e ast.Expr, recv string) (string, bool) {
	c, ok := e.(*ast.CallExpr)
	if !ok {
		return "", false
	}
	sel, ok := c.Fun.(*ast.SelectorExpr)
	if !ok {
		return "", false
	}
	in, ok := sel.X.(*ast.SelectorExpr)
	if !ok || in.Sel.Name != "mu" {
		return "", false
	}
	if id, ok := in.X.(*ast.Ident); !ok || id.Name != recv {
		return "", false
	}
	return sel.Sel.Name, true
}

func recvVar(fd *ast.FuncDecl) string {
	if fd.Recv == nil || len(fd.Recv.List) == 0 || len(fd.Recv.List[0].Names) == 0 {
		return ""
	}
	return fd.Recv.List[0].Names[0].Name
}

// isTable matches `<recv>.m`.
func isTable(e ast.Expr, recv string) bool {
	sel, ok := e.(*ast.SelectorExpr)
	if !ok || sel.Sel.Name != "m" {
		return false
	}
	id, ok := sel.X.(*ast.Ident)
	return ok && id.Name == recv
}

type lockFacts struct {
	lock      string // Lock | RLock | none
	deferred  bool
	otherMu   int
	writes    bool
	reads     bool
	calls     []string
	callsUser bool // calls a function value passed in (the mutate / walk callback)
}

func memMethodFacts(p *pkg, fd *ast.FuncDecl, methods map[string]bool) lockFacts {
	recv := recvVar(fd)
	f := lockFacts{lock: "none"}
	body := fd.Body.List
	skip := map[ast.Node]bool{}
	if len(body) >= 1 {
		if es, ok := body[0].(*ast.ExprStmt); ok {
			if name, ok := muCall(es.X, recv); ok && (name == "Lock" || name == "RLock") {
				f.lock = name
				skip[es.X] = true
				if len(body) >= 2 {
					if ds, ok := body[1].(*ast.DeferStmt); ok {
						want := "Unlock"
						if name == "RLock" {
							want = "RUnlock"
						}
						if n2, ok := muCall(ds.Call, recv); ok && n2 == want {
							f.deferred = true
							skip[ds.Call] = true
						}
					}
				}
			}
		}
	}
	// names bound to entries of the table: `entry := b.m[k]`, `for k, entry := range b.m`
	entryVars := map[string]bool{}
	params := map[string]bool{}
	for _, fl := range fd.Type.Params.List {
		if _, ok := fl.Type.(*ast.FuncType); ok {
			for _, n := range fl.Names {
				params[n.Name] = true
			}
		}
		if id, ok := fl.Type.(*ast.Ident); ok && id.Name == "WalkFunc" {
			for _, n := range fl.Names {
				params[n.Name] = true
			}
		}
	}
	ast.Inspect(fd.Body, func(n ast.Node) bool {
		switch x := n.(type) {
		case *ast.AssignStmt:
			for i, r := range x.Rhs {
				if ix, ok := r.(*ast.IndexExpr); ok && isTable(ix.X, recv) && i < len(x.Lhs) {
					if id, ok := x.Lhs[i].(*ast.Ident); ok {
						entryVars[id.Name] = true
					}
				}
			}
		case *ast.RangeStmt:
			if isTable(x.X, recv) {
				if id, ok := x.Value.(*ast.Ident); ok {
					entryVars[id.Name] = true
				}
			}
		}
		return true
	})
	ast.Inspect(fd.Body, func(n ast.Node) bool {
		if n == nil || skip[n] {
			return !skip[n]
		}
		switch x := n.(type) {
		case *ast.CallExpr:
			if name, ok := muCall(x, recv); ok {
				_ = name
				f.otherMu++
			}
			if id, ok := x.Fun.(*ast.Ident); ok {
				if id.Name == "delete" && len(x.Args) > 0 && isTable(x.Args[0], recv) {
					f.writes = true
				}
				if params[id.Name] {
					f.callsUser = true
				}
			}
			if sel, ok := x.Fun.(*ast.SelectorExpr); ok {
				if id, ok := sel.X.(*ast.Ident); ok {
					if id.Name == recv && methods[sel.Sel.Name] {
						f.calls = append(f.calls, sel.Sel.Name)
					}
					if entryVars[id.Name] && (sel.Sel.Name == "setBytes" || sel.Sel.Name == "appendBytes") {
						f.writes = true
					}
				}
			}
		case *ast.AssignStmt:
			for _, l := range x.Lhs {
				if isTable(l, recv) {
					f.writes = true
				}
				if ix, ok := l.(*ast.IndexExpr); ok && isTable(ix.X, recv) {
					f.writes = true
				}
				if sel, ok := l.(*ast.SelectorExpr); ok {
					if id, ok := sel.X.(*ast.Ident); ok && entryVars[id.Name] {
						f.writes = true
					}
				}
			}
		case *ast.IncDecStmt:
			if ix, ok := x.X.(*ast.IndexExpr); ok && isTable(ix.X, recv) {
				f.writes = true
			}
		case *ast.SelectorExpr:
			if isTable(x, recv) {
				f.reads = true
			}
		}
		return true
	})
	sort.Strings(f.calls)
	return f
}

func genPiscesLock(repo string, fs facts) (string, error) {
	p, err := loadPkg(repo, "pisces")
	if err != nil {
		return "", err
	}
	methods := map[string]bool{}
	var names []string
	for _, fd := range p.funcs() {
		if recvName(fd) == "memKV" {
			methods[fd.Name.Name] = true
			names = append(names, fd.Name.Name)
		}
	}
	sort.Strings(names)
	if len(names) == 0 {
		return "", fmt.Errorf("no memKV methods found")
	}
	// the struct: which field is the table, which the lock
	hasM, hasMu := false, false
	for _, f := range p.files {
		ast.Inspect(f, func(n ast.Node) bool {
			ts, ok := n.(*ast.TypeSpec)
			if !ok || ts.Name.Name != "memKV" {
				return true
			}
			if st, ok := ts.Type.(*ast.StructType); ok {
				for _, fl := range st.Fields.List {
					for _, n := range fl.Names {
						if n.Name == "m" {
							hasM = strings.HasPrefix(p.src(fl.Type), "map[string]")
						}
						if n.Name == "mu" {
							hasMu = p.src(fl.Type) == "sync.RWMutex"
						}
					}
				}
			}
			return true
		})
	}
	if !hasM || !hasMu {
		return "", fmt.Errorf("memKV no longer has fields m map[string]... and mu sync.RWMutex")
	}

	var b strings.Builder
	b.WriteString("namespace PubModel.Gen.PiscesLock\n\n")
	b.WriteString("/-- method of memKV: first lock call, unlock deferred next, other uses of the lock in the body,\n")
	b.WriteString("    writes the table or an entry, reads the table, memKV methods it calls, calls a caller-supplied function -/\n")
	b.WriteString("def table : List (String × String × Bool × Nat × Bool × Bool × List String × Bool) := [\n")
	ff := map[string]interface{}{}
	for i, n := range names {
		fd := p.fn("memKV", n)
		f := memMethodFacts(p, fd, methods)
		sep := ","
		if i == len(names)-1 {
			sep = ""
		}
		fmt.Fprintf(&b, "  (%s, %s, %v, %d, %v, %v, %s, %v)%s\n", leanStr(n), leanStr(f.lock), f.deferred, f.otherMu, f.writes, f.reads,
			leanStrList(f.calls), f.callsUser, sep)
		ff[n] = map[string]interface{}{"lock": f.lock, "deferUnlock": f.deferred, "otherLockUses": f.otherMu, "writes": f.writes,
			"reads": f.reads, "calls": f.calls, "callsCallback": f.callsUser}
	}
	b.WriteString("]\n\n")

	// who else touches x.m / x.mu where x could be a memKV: any selector .m/.mu outside memKV methods
	var touchM, touchMu []string
	for _, fd := range p.funcs() {
		if fd.Body == nil {
			continue
		}
		tm, tmu := false, false
		ast.Inspect(fd.Body, func(n ast.Node) bool {
			if sel, ok := n.(*ast.SelectorExpr); ok {
				if sel.Sel.Name == "m" {
					tm = true
				}
				if sel.Sel.Name == "mu" {
					tmu = true
				}
			}
			if cl, ok := n.(*ast.CompositeLit); ok {
				if id, ok := cl.Type.(*ast.Ident); ok && id.Name == "memKV" {
					for _, el := range cl.Elts {
						if kv, ok := el.(*ast.KeyValueExpr); ok {
							if id, ok := kv.Key.(*ast.Ident); ok && id.Name == "m" {
								tm = true
							}
						}
					}
				}
			}
			return true
		})
		name := fd.Name.Name
		if r := recvName(fd); r != "" {
			name = r + "." + name
		}
		if tm {
			touchM = append(touchM, name)
		}
		if tmu {
			touchMu = append(touchMu, name)
		}
	}
	sort.Strings(touchM)
	sort.Strings(touchMu)
	fmt.Fprintf(&b, "/-- every function of package pisces in which a selector `.m` (or a memKV literal setting m) occurs -/\ndef touchTable : List String := %s\n\n", leanStrList(touchM))
	fmt.Fprintf(&b, "/-- every function of package pisces in which a selector `.mu` occurs -/\ndef touchLock : List String := %s\n\n", leanStrList(touchMu))

	// memEntry.bytes returns a copy; newMemEntry copies its argument (no aliasing out of the lock)
	copies := false
	if fd := p.fn("memEntry", "bytes"); fd != nil {
		src := p.src(fd.Body)
		copies = strings.Contains(src, "make([]byte") && strings.Contains(src, "copy(")
	}
	fmt.Fprintf(&b, "/-- `memEntry.bytes` hands out a copy of the buffer -/\ndef bytesCopies : Bool := %v\n\n", copies)

	// the function table: which memKV method serves which KVOps field
	var opsMap []string
	if fd := p.fn("memKV", "ops"); fd != nil {
		ast.Inspect(fd.Body, func(n ast.Node) bool {
			kv, ok := n.(*ast.KeyValueExpr)
			if !ok {
				return true
			}
			k, ok1 := kv.Key.(*ast.Ident)
			v, ok2 := kv.Value.(*ast.SelectorExpr)
			if ok1 && ok2 {
				opsMap = append(opsMap, fmt.Sprintf("(%s, %s)", leanStr(k.Name), leanStr(v.Sel.Name)))
			}
			return true
		})
	}
	fmt.Fprintf(&b, "/-- `memKV.ops`: KVOps field, memKV method -/\ndef opsTable : List (String × String) := [%s]\n\n", strings.Join(opsMap, ", "))

	// sqlite3KV.mutate: the order of its database calls
	var seq []string
	if fd := p.fn("sqlite3KV", "mutate"); fd != nil {
		ast.Inspect(fd.Body, func(n ast.Node) bool {
			if d, ok := n.(*ast.DeferStmt); ok {
				if sel, ok := d.Call.Fun.(*ast.SelectorExpr); ok {
					seq = append(seq, "defer "+p.src(sel.X)+"."+sel.Sel.Name)
				}
				return false
			}
			c, ok := n.(*ast.CallExpr)
			if !ok {
				return true
			}
			if sel, ok := c.Fun.(*ast.SelectorExpr); ok {
				switch sel.Sel.Name {
				case "Begin", "Commit", "Rollback", "X", "Q", "Q1":
					seq = append(seq, p.src(sel.X)+"."+sel.Sel.Name)
				}
			}
			if id, ok := c.Fun.(*ast.Ident); ok && (id.Name == "f" || id.Name == "sqlResError") {
				seq = append(seq, id.Name)
			}
			return true
		})
	}
	fmt.Fprintf(&b, "/-- `sqlite3KV.mutate`: its database calls and the callback, in source order -/\ndef sqlMutateSeq : List String := %s\n\n", leanStrList(seq))
	b.WriteString("end PubModel.Gen.PiscesLock\n")
	_ = token.ADD
	ff["_touchTable"] = touchM
	ff["_touchLock"] = touchMu
	ff["_sqlMutateSeq"] = seq
	fs["piscesLock"] = ff
	return b.String(), nil
}
