package main

// C19 (package dags): nothing in the property depends on a constant or table of
// the source, so there are no regenerated facts; the hand-modelled functions
// are hash-tracked (a changed hash escalates the correspondence run).

func init() {
	trackedFuncs["C19"] = []tracked{
		{"dags", "", "initMap"}, {"dags", "", "newMapNode"}, {"dags", "", "NewMap"},
		{"dags", "Map", "makeLayers"}, {"dags", "", "minCircle"}, {"dags", "", "traceCircle"},
		{"dags", "", "CheckDAG"},
		{"dags", "Map", "buildAlls"}, {"dags", "", "isCrit"}, {"dags", "Map", "buildCrits"},
		{"dags", "Map", "SortedNodes"}, {"dags", "Map", "SortedLayers"},
		{"dags", "byLayer", "Less"}, {"dags", "byNcritOuts", "Less"},
		{"dags", "", "checkPush"}, {"dags", "", "pushWorthy"}, {"dags", "", "pushNode"}, {"dags", "", "pushTight"},
		{"dags", "", "critOutMaxLayer"}, {"dags", "", "avgCritInY"}, {"dags", "", "findY"}, {"dags", "", "snapNearBy"},
		{"dags", "", "LayoutMap"}, {"dags", "", "Layout"}, {"dags", "", "RevLayout"},
		{"dags", "Graph", "Reverse"}, {"dags", "Map", "Reverse"}, {"dags", "MapView", "Reverse"},
	}
}
