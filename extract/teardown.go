package main

import (
	"fmt"
	"go/ast"
	"strings"
)

// Gen/Teardown.lean: the facts about the proxy-side and endpoint-side teardown
// code that the second-layer C04 models (PubModel.Sni.Teardown, PubModel.Sni.EpTeardown)
// are parameterised by.  Each fact is a statement-level property of the AST: a
// deferred call is there, a select has an arm, a close is unconditional.

func init() { register("Teardown", genTeardown) }

// topLevel returns the statements of a function body (no nesting).
func topLevel(fd *ast.FuncDecl) []ast.Stmt {
	if fd == nil || fd.Body == nil {
		return nil
	}
	return fd.Body.List
}

// funcLitAssigned finds `name := func(...) {...}` inside fd.
func funcLitAssigned(p *pkg, fd *ast.FuncDecl, name string) *ast.FuncLit {
	var out *ast.FuncLit
	ast.Inspect(fd, func(n ast.Node) bool {
		as, ok := n.(*ast.AssignStmt)
		if !ok || len(as.Lhs) != 1 || len(as.Rhs) != 1 {
			return true
		}
		if id, ok := as.Lhs[0].(*ast.Ident); ok && id.Name == name {
			if fl, ok := as.Rhs[0].(*ast.FuncLit); ok && out == nil {
				out = fl
			}
		}
		return true
	})
	return out
}

// hasDefer reports whether the statement list has a top-level defer whose text contains all of want.
func hasDefer(p *pkg, list []ast.Stmt, want ...string) bool {
	for _, st := range list {
		ds, ok := st.(*ast.DeferStmt)
		if !ok {
			continue
		}
		src := p.src(ds)
		all := true
		for _, w := range want {
			if !strings.Contains(src, w) {
				all = false
			}
		}
		if all {
			return true
		}
	}
	return false
}

// unconditionalCall: a top-level expression statement `call` that is not preceded by a top-level
// return and does not sit in an if/switch/select.
func unconditionalCall(p *pkg, list []ast.Stmt, call string) bool {
	for _, st := range list {
		switch x := st.(type) {
		case *ast.ReturnStmt:
			return false
		case *ast.IfStmt:
			// an if that can return before the call makes the call conditional
			ret := false
			ast.Inspect(x, func(n ast.Node) bool {
				if _, ok := n.(*ast.ReturnStmt); ok {
					ret = true
				}
				return true
			})
			if ret {
				return false
			}
		case *ast.ExprStmt:
			if strings.ReplaceAll(p.src(x), " ", "") == call {
				return true
			}
		}
	}
	return false
}

func selectWith(p *pkg, n ast.Node, arms ...string) bool {
	found := false
	ast.Inspect(n, func(m ast.Node) bool {
		sel, ok := m.(*ast.SelectStmt)
		if !ok {
			return true
		}
		all := true
		for _, a := range arms {
			if !selectHas(p, sel, a) {
				all = false
			}
		}
		if all {
			found = true
		}
		return true
	})
	return found
}

func genTeardown(repo string, fs facts) (string, error) {
	p, err := loadPkg(repo, "sniproxy")
	if err != nil {
		return "", err
	}
	nu, err := loadPkg(repo, "netutil")
	if err != nil {
		return "", err
	}
	join := nu.fn("", "JoinConn")
	host := p.fn("proxy", "hostConn")
	sbn := p.fn("Server", "ServeBackName")
	ecClose := p.fn("endpointClient", "Close")
	ecServe := p.fn("endpointClient", "serve")
	trShutdown := p.fn("transport", "shutdown")
	trCall := p.fn("transport", "call")
	trAsync := p.fn("transport", "asyncCall")
	epServe := p.fn("endpointServer", "serve")
	epCleanup := p.fn("endpointServer", "cleanup")
	epDial := p.fn("endpointServer", "handleDial")
	csShutdown := p.fn("connections", "shutdown")
	csAdd := p.fn("connections", "add")
	connCleanup := p.fn("connection", "cleanup")
	epAccept := p.fn("Endpoint", "Accept")
	epClose := p.fn("Endpoint", "Close")
	epSend := p.fn("Endpoint", "sendAccept")
	epRun := p.fn("Endpoint", "serve")
	ecDial := p.fn("endpointClient", "Dial")
	boxReceive := p.fn("connMailBox", "receive")
	trServe := p.fn("transport", "serve")
	for name, fd := range map[string]*ast.FuncDecl{"netutil.JoinConn": join, "proxy.hostConn": host,
		"Server.ServeBackName": sbn, "endpointClient.Close": ecClose, "endpointClient.serve": ecServe,
		"transport.shutdown": trShutdown, "transport.call": trCall, "transport.asyncCall": trAsync,
		"endpointServer.serve": epServe, "endpointServer.cleanup": epCleanup, "endpointServer.handleDial": epDial,
		"connections.shutdown": csShutdown, "connections.add": csAdd, "connection.cleanup": connCleanup,
		"Endpoint.Accept": epAccept, "Endpoint.Close": epClose, "Endpoint.sendAccept": epSend, "Endpoint.serve": epRun,
		"endpointClient.Dial": ecDial, "connMailBox.receive": boxReceive, "transport.serve": trServe} {
		if fd == nil {
			return "", fmt.Errorf("%s not found", name)
		}
	}

	// ---- proxy side ----
	joinLit := funcLitAssigned(nu, join, "join")
	closeAllLit := funcLitAssigned(nu, join, "closeAll")
	joinDefersCloseAll := joinLit != nil && func() bool {
		for _, st := range joinLit.Body.List {
			if ds, ok := st.(*ast.DeferStmt); ok && strings.Contains(nu.src(ds), "closeAll()") {
				return true
			}
		}
		return false
	}()
	closeAllClosesBoth := closeAllLit != nil && strings.Contains(nu.src(closeAllLit), "c1.Close()") &&
		strings.Contains(nu.src(closeAllLit), "c2.Close()")
	// the two copy goroutines are started with both orientations
	bothDirections := strings.Contains(nu.src(join), "go join(c1, c2)") && strings.Contains(nu.src(join), "go join(c2, c1)")
	hostDefersFrontClose := len(topLevel(host)) > 0 && func() bool {
		ds, ok := topLevel(host)[0].(*ast.DeferStmt)
		return ok && strings.ReplaceAll(p.src(ds), " ", "") == "deferconn.Close()"
	}() && hasDefer(p, topLevel(host), "closer.Close()")
	serveBackUnmaps := hasDefer(p, topLevel(sbn), "s.unmap(name, ep)")
	closeClosesConn := hasDefer(p, topLevel(sbn), "ep.Close()") &&
		unconditionalCall(p, topLevel(ecClose), "c.conn.Close()")
	shutdownHasTimeout := strings.Contains(p.src(ecClose), "context.WithTimeout(") &&
		strings.Contains(p.src(ecClose), "c.tr.shutdown(ctx)") &&
		selectWith(p, trShutdown, "<-ctx.Done()", "<-tr.serveDone") &&
		selectWith(p, trCall, "<-ctx.Done()", "<-done") &&
		selectWith(p, trAsync, "<-ctx.Done()", "tr.calls <-")
	reportsDisconnect := hasDefer(p, topLevel(sbn), "s.onDisconnect(name, session)")
	// side mode: the wait for the side websocket ends when the endpoint's transport does.  `receive` has a
	// channel parameter (after ctx) that its select also waits on, in an arm that returns; `Dial` hands it the
	// transport's serveDone; `transport.serve` closes serveDone when it returns (deferred, first statement level).
	sideDialSelectsGone := false
	if ps := boxReceive.Type.Params.List; len(ps) >= 2 && len(ps[len(ps)-1].Names) == 1 {
		gone := ps[len(ps)-1].Names[0].Name
		ast.Inspect(boxReceive, func(n ast.Node) bool {
			sel, ok := n.(*ast.SelectStmt)
			if !ok {
				return true
			}
			for _, c := range sel.Body.List {
				cc := c.(*ast.CommClause)
				if cc.Comm == nil || strings.ReplaceAll(p.src(cc.Comm), " ", "") != "<-"+gone {
					continue
				}
				returns := false
				for _, st := range cc.Body {
					if _, ok := st.(*ast.ReturnStmt); ok {
						returns = true
					}
				}
				if returns && selectHas(p, sel, "<-ctx.Done()") && selectHas(p, sel, "<-b.ch") {
					sideDialSelectsGone = true
				}
			}
			return true
		})
	}
	sideDialSelectsGone = sideDialSelectsGone &&
		strings.Contains(strings.ReplaceAll(p.src(ecDial), " ", ""), "returnbox.receive(ctx,c.tr.serveDone)") &&
		hasDefer(p, topLevel(trServe), "close(tr.serveDone)")
	// every tunnel operation is a transport call, and serving the endpoint client is the transport's serve loop
	tunnelOpsUseCall := true
	for _, m := range []string{"Read", "Write", "Close"} {
		fd := p.fn("tunnel", m)
		if fd == nil || !strings.Contains(p.src(fd), "t.tr.call(t.ctx,") {
			tunnelOpsUseCall = false
		}
	}
	serveIsTransport := strings.Contains(p.src(ecServe), "return c.tr.serve()")

	// ---- endpoint side ----
	// serve: a deferred func that runs cleanup and then waits for the handlers
	serveDefersCleanup := hasDefer(p, topLevel(epServe), "s.cleanup()", "s.callWait.Wait()") &&
		strings.Index(p.src(epServe), "s.cleanup()") < strings.Index(p.src(epServe), "s.callWait.Wait()")
	cleanupClosesAll := strings.Contains(p.src(epCleanup), "s.conns.shutdown()") &&
		strings.Contains(p.src(epCleanup), "conn.cleanup()") &&
		strings.Contains(p.src(csShutdown), "cs.closed = true") &&
		strings.Contains(p.src(connCleanup), "c.Conn.Close()") && strings.Contains(p.src(connCleanup), "c.serverConn.Close()")
	addRefusesAfterShutdown := strings.Contains(p.src(csAdd), "if cs.closed")
	// handleDial: the deferred cleanup of a connection that was not handed to s.conns
	dialCleansUnlessAdded := hasDefer(p, topLevel(epDial), "conn != nil", "conn.cleanup()") &&
		strings.Index(p.src(epDial), "s.conns.add(conn)") < strings.LastIndex(p.src(epDial), "conn = nil")
	acceptSelectsDone := selectWith(p, epAccept, "<-p.incoming", "<-p.serveDone", "<-p.closed")
	sendAcceptBounded := selectWith(p, epSend, "<-timer.C", "p.incoming <- conn", "<-p.closed")
	// Close: inside the once-func, a select on the timer and serveDone none of whose arms returns, followed
	// (at the same nesting level) by close(p.closed) and p.conn.Close()
	closeBounded := false
	ast.Inspect(epClose, func(n ast.Node) bool {
		fl, ok := n.(*ast.FuncLit)
		if !ok {
			return true
		}
		selAt, closedAt, connAt, retInSel := -1, -1, -1, false
		for i, st := range fl.Body.List {
			switch x := st.(type) {
			case *ast.SelectStmt:
				if selectHas(p, x, "<-timer.C") && selectHas(p, x, "<-p.serveDone") {
					selAt = i
					ast.Inspect(x, func(m ast.Node) bool {
						if _, ok := m.(*ast.ReturnStmt); ok {
							retInSel = true
						}
						return true
					})
				}
			case *ast.ExprStmt:
				if strings.ReplaceAll(p.src(x), " ", "") == "close(p.closed)" {
					closedAt = i
				}
			}
			if strings.Contains(p.src(st), "p.conn.Close()") {
				if _, isIf := st.(*ast.IfStmt); !isIf {
					connAt = i
				}
			}
		}
		if selAt >= 0 && !retInSel && closedAt > selAt && connAt > selAt {
			closeBounded = true
		}
		return true
	})
	serveSignalsDone := strings.Contains(p.src(epRun), "p.server.serve()") && strings.Contains(p.src(epRun), "close(p.serveDone)")

	var b strings.Builder
	b.WriteString("import PubModel.Sni.Teardown\nimport PubModel.Sni.EpTeardown\n\nnamespace PubModel.Gen.Teardown\n\n")
	b.WriteString("/-- facts of the proxy-side teardown code, as read from the source -/\n")
	fmt.Fprintf(&b, "def facts : PubModel.Sni.Teardown.Facts :=\n  { joinDefersCloseAll := %v\n    closeAllClosesBoth := %v\n    hostDefersFrontClose := %v\n    serveBackUnmaps := %v\n    closeClosesConn := %v\n    shutdownHasTimeout := %v\n    reportsDisconnect := %v\n    sideDialSelectsGone := %v }\n\n",
		joinDefersCloseAll && bothDirections, closeAllClosesBoth, hostDefersFrontClose, serveBackUnmaps, closeClosesConn, shutdownHasTimeout, reportsDisconnect, sideDialSelectsGone)
	fmt.Fprintf(&b, "/-- tunnel.Read/Write/Close are transport calls (they inherit the first layer's contract) -/\ndef tunnelOpsUseCall : Bool := %v\n", tunnelOpsUseCall)
	fmt.Fprintf(&b, "/-- endpointClient.serve is the transport's serve loop -/\ndef serveIsTransport : Bool := %v\n\n", serveIsTransport)
	b.WriteString("/-- facts of the endpoint-side teardown code, as read from the source -/\n")
	fmt.Fprintf(&b, "def epFacts : PubModel.Sni.EpTeardown.Facts :=\n  { serveDefersCleanup := %v\n    cleanupClosesAll := %v\n    addRefusesAfterShutdown := %v\n    dialCleansUnlessAdded := %v\n    acceptSelectsDone := %v\n    sendAcceptBounded := %v\n    closeBounded := %v\n    serveSignalsDone := %v }\n",
		serveDefersCleanup, cleanupClosesAll, addRefusesAfterShutdown, dialCleansUnlessAdded, acceptSelectsDone, sendAcceptBounded, closeBounded, serveSignalsDone)
	b.WriteString("\nend PubModel.Gen.Teardown\n")
	fs["teardown.proxyFacts"] = joinDefersCloseAll && bothDirections && closeAllClosesBoth && hostDefersFrontClose && serveBackUnmaps && closeClosesConn && shutdownHasTimeout && reportsDisconnect && sideDialSelectsGone
	fs["teardown.epFacts"] = serveDefersCleanup && cleanupClosesAll && addRefusesAfterShutdown && dialCleansUnlessAdded && acceptSelectsDone && sendAcceptBounded && closeBounded && serveSignalsDone
	return b.String(), nil
}
