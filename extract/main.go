// Command extract regenerates, from /repo's current working tree, the parts of
// the Lean model that are data: wire schemas and type codes, constants, SQL
// texts, lock discipline, call-site tables, and the normalised hashes of the
// functions whose models are written by hand.
//
// usage: extract -repo /repo -out /verif/lean/PubModel/Gen -facts facts.json
package main

import (
	"bytes"
	"crypto/sha256"
	"encoding/hex"
	"encoding/json"
	"flag"
	"fmt"
	"go/ast"
	"go/parser"
	"go/printer"
	"go/token"
	"os"
	"path/filepath"
	"sort"
	"strconv"
	"strings"
)

type pkg struct {
	dir   string
	fset  *token.FileSet
	files map[string]*ast.File
}

func loadPkg(repo, dir string) (*pkg, error) {
	p := &pkg{dir: dir, fset: token.NewFileSet(), files: map[string]*ast.File{}}
	ents, err := os.ReadDir(filepath.Join(repo, dir))
	if err != nil {
		return nil, err
	}
	for _, e := range ents {
		n := e.Name()
		if !strings.HasSuffix(n, ".go") || strings.HasSuffix(n, "_test.go") {
			continue
		}
		if strings.HasSuffix(n, "_verif.go") || strings.HasSuffix(n, "_noverif.go") {
			continue
		}
		f, err := parser.ParseFile(p.fset, filepath.Join(repo, dir, n), nil, 0)
		if err != nil {
			return nil, err
		}
		p.files[n] = f
	}
	return p, nil
}

func recvName(fd *ast.FuncDecl) string {
	if fd.Recv == nil || len(fd.Recv.List) == 0 {
		return ""
	}
	t := fd.Recv.List[0].Type
	if s, ok := t.(*ast.StarExpr); ok {
		t = s.X
	}
	if id, ok := t.(*ast.Ident); ok {
		return id.Name
	}
	return ""
}

func (p *pkg) funcs() []*ast.FuncDecl {
	var names []string
	for n := range p.files {
		names = append(names, n)
	}
	sort.Strings(names)
	var out []*ast.FuncDecl
	for _, n := range names {
		for _, d := range p.files[n].Decls {
			if fd, ok := d.(*ast.FuncDecl); ok {
				out = append(out, fd)
			}
		}
	}
	return out
}

func (p *pkg) fn(recv, name string) *ast.FuncDecl {
	for _, fd := range p.funcs() {
		if fd.Name.Name == name && recvName(fd) == recv {
			return fd
		}
	}
	return nil
}

func (p *pkg) src(n ast.Node) string {
	var b bytes.Buffer
	printer.Fprint(&b, p.fset, n)
	return b.String()
}

func (p *pkg) hash(recv, name string) string {
	fd := p.fn(recv, name)
	if fd == nil {
		return "missing"
	}
	s := p.src(fd)
	h := sha256.Sum256([]byte(s))
	return hex.EncodeToString(h[:8])
}

// constBlocks evaluates untyped integer const blocks that use iota, iota + k
// or literal values, with implicit repetition.
func (p *pkg) consts() map[string]int64 {
	out := map[string]int64{}
	for _, f := range p.files {
		for _, d := range f.Decls {
			gd, ok := d.(*ast.GenDecl)
			if !ok || gd.Tok != token.CONST {
				continue
			}
			var last ast.Expr
			for i, s := range gd.Specs {
				vs := s.(*ast.ValueSpec)
				if len(vs.Values) > 0 {
					last = vs.Values[0]
				}
				if last == nil || len(vs.Names) != 1 {
					continue
				}
				if v, ok := evalInt(last, int64(i), out); ok {
					out[vs.Names[0].Name] = v
				}
			}
		}
	}
	return out
}

func evalInt(e ast.Expr, iota int64, env map[string]int64) (int64, bool) {
	switch x := e.(type) {
	case *ast.BasicLit:
		if x.Kind == token.INT {
			v, err := strconv.ParseInt(x.Value, 0, 64)
			return v, err == nil
		}
	case *ast.Ident:
		if x.Name == "iota" {
			return iota, true
		}
		v, ok := env[x.Name]
		return v, ok
	case *ast.ParenExpr:
		return evalInt(x.X, iota, env)
	case *ast.BinaryExpr:
		a, ok1 := evalInt(x.X, iota, env)
		b, ok2 := evalInt(x.Y, iota, env)
		if !ok1 || !ok2 {
			return 0, false
		}
		switch x.Op {
		case token.ADD:
			return a + b, true
		case token.SUB:
			return a - b, true
		case token.MUL:
			return a * b, true
		case token.SHL:
			return a << uint(b), true
		case token.QUO:
			if b != 0 {
				return a / b, true
			}
		}
	case *ast.CallExpr: // conversions like int64(5)
		if len(x.Args) == 1 {
			return evalInt(x.Args[0], iota, env)
		}
	}
	return 0, false
}

type facts map[string]interface{}

func leanStr(s string) string { return strconv.Quote(s) }

func writeIfChanged(path string, data []byte) error {
	old, err := os.ReadFile(path)
	if err == nil && bytes.Equal(old, data) {
		return nil
	}
	return os.WriteFile(path, data, 0o644)
}

func main() {
	repo := flag.String("repo", "/repo", "repository root")
	out := flag.String("out", "", "directory for Gen/*.lean")
	factsPath := flag.String("facts", "", "facts json output")
	flag.Parse()

	fs := facts{}
	gens := map[string]string{}
	var errs []string
	for _, g := range generators {
		txt, err := g.run(*repo, fs)
		if err != nil {
			errs = append(errs, fmt.Sprintf("%s: %v", g.name, err))
			// A source that no longer has the expected shape yields a Gen file
			// that fails to elaborate, so the obligation visibly breaks.
			txt = fmt.Sprintf("-- extraction failed: %s\n#eval (show Nat from \"extraction of %s failed\")\n",
				strings.ReplaceAll(err.Error(), "\n", " "), g.name)
		}
		gens[g.name] = txt
	}
	fs["errors"] = errs
	if *out != "" {
		for name, txt := range gens {
			if strings.HasPrefix(name, "_") {
				continue
			}
			hdr := "-- GENERATED by /verif/extract from /repo on every run. Do not edit.\n"
			if err := writeIfChanged(filepath.Join(*out, name+".lean"), []byte(hdr+txt)); err != nil {
				fmt.Fprintln(os.Stderr, err)
				os.Exit(2)
			}
		}
	}
	if *factsPath != "" {
		bs, _ := json.MarshalIndent(fs, "", " ")
		if err := os.WriteFile(*factsPath, bs, 0o644); err != nil {
			fmt.Fprintln(os.Stderr, err)
			os.Exit(2)
		}
	}
	for _, e := range errs {
		fmt.Fprintln(os.Stderr, "extract:", e)
	}
}

type generator struct {
	name string
	run  func(repo string, fs facts) (string, error)
}

var generators []generator

func register(name string, f func(repo string, fs facts) (string, error)) {
	generators = append(generators, generator{name, f})
}
