package main

import (
	"fmt"
	"go/ast"
	"go/token"
	"strings"
)

// Gen/Stream.lean: the side-connection chunk size and whether tunnel.Read
// refuses a reply longer than the caller's buffer.

func init() {
	register("Stream", genStream)
	trackedFuncs["C01"] = []tracked{
		{"sniproxy", "sideConn", "Write"}, {"sniproxy", "sideConn", "Read"}, {"sniproxy", "sideConn", "nextReader"},
		{"sniproxy", "sideConn", "CloseWrite"}, {"sniproxy", "sideConn", "Close"},
		{"sniproxy", "tunnel", "Read"}, {"sniproxy", "tunnel", "Write"}, {"sniproxy", "tunnel", "Close"},
		{"sniproxy", "endpointServer", "handleRead"}, {"sniproxy", "endpointServer", "handleWrite"},
		{"sniproxy", "endpointServer", "handleClose"}, {"sniproxy", "readResponse", "decodeFrom"},
		{"sniproxy", "TLSHelloConn", "Read"}, {"sniproxy", "proxy", "hostConn"}, {"netutil", "", "JoinConn"},
		{"sniproxy", "", "newConnection"},
	}
}

func genStream(repo string, fs facts) (string, error) {
	p, err := loadPkg(repo, "sniproxy")
	if err != nil {
		return "", err
	}
	w := p.fn("sideConn", "Write")
	tr := p.fn("tunnel", "Read")
	if w == nil || tr == nil {
		return "", fmt.Errorf("sideConn.Write / tunnel.Read not found")
	}
	chunk := int64(-1)
	ast.Inspect(w, func(n ast.Node) bool {
		gd, ok := n.(*ast.GenDecl)
		if !ok || gd.Tok != token.CONST {
			return true
		}
		for _, s := range gd.Specs {
			vs := s.(*ast.ValueSpec)
			if len(vs.Names) == 1 && vs.Names[0].Name == "chunk" && len(vs.Values) == 1 {
				if v, ok := evalInt(vs.Values[0], 0, p.consts()); ok {
					chunk = v
				}
			}
		}
		return true
	})
	if chunk < 0 {
		return "", fmt.Errorf("sideConn.Write: const chunk not found")
	}
	checked := false
	ast.Inspect(tr, func(n ast.Node) bool {
		is, ok := n.(*ast.IfStmt)
		if !ok {
			return true
		}
		c := strings.ReplaceAll(p.src(is.Cond), " ", "")
		if c == "len(resp.bytes)>len(buf)" || c == "len(buf)<len(resp.bytes)" {
			for _, st := range is.Body.List {
				if rs, ok := st.(*ast.ReturnStmt); ok && len(rs.Results) == 2 && p.src(rs.Results[1]) != "nil" {
					checked = true
				}
			}
		}
		return true
	})
	// JoinConn: each direction is its own io.Copy over the closure's own parameters (a buffer or any
	// other state shared between the two directions would let one stream's bytes into the other)
	joinPrivate := false
	if nu, err := loadPkg(repo, "netutil"); err == nil {
		if jc := nu.fn("", "JoinConn"); jc != nil {
			if lit := funcLitAssigned(nu, jc, "join"); lit != nil && lit.Type.Params != nil && len(lit.Type.Params.List) == 1 &&
				len(lit.Type.Params.List[0].Names) == 2 {
				a, b := lit.Type.Params.List[0].Names[0].Name, lit.Type.Params.List[0].Names[1].Name
				body := nu.src(lit.Body)
				copies := 0
				ast.Inspect(lit.Body, func(n ast.Node) bool {
					if ce, ok := n.(*ast.CallExpr); ok && strings.HasPrefix(nu.src(ce.Fun), "io.Copy") {
						copies++
						if nu.src(ce.Fun) != "io.Copy" || len(ce.Args) != 2 || nu.src(ce.Args[0]) != a || nu.src(ce.Args[1]) != b {
							copies += 100
						}
					}
					return true
				})
				src := nu.src(jc)
				joinPrivate = copies == 1 && !strings.Contains(body, "CopyBuffer") &&
					strings.Contains(src, "go join(c1, c2)") && strings.Contains(src, "go join(c2, c1)")
			}
		}
	}
	fs["stream.joinPrivateBuffers"] = joinPrivate
	fs["stream.sideChunk"] = chunk
	fs["stream.tunnelReadChecked"] = checked
	return fmt.Sprintf("namespace PubModel.Gen.Stream\n/-- `const chunk` of sideConn.Write -/\ndef sideChunk : Nat := %d\n"+
		"/-- tunnel.Read returns an error when the reply is longer than the caller's buffer -/\ndef tunnelReadChecked : Bool := %v\n"+
		"/-- JoinConn runs one plain io.Copy per direction over that direction's own two connections -/\ndef joinPrivateBuffers : Bool := %v\nend PubModel.Gen.Stream\n", chunk, checked, joinPrivate), nil
}
