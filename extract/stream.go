package main

import (
	"fmt"
	"go/ast"
	"go/token"
	"strings"
)

// Gen/Stream.lean: the side-connection chunk size and whether tunnel.Read
// refuses a reply longer than the caller's buffer.

func init() {
	register("Stream", genStream)
	trackedFuncs["C01"] = []tracked{
		{"sniproxy", "sideConn", "Write"}, {"sniproxy", "sideConn", "Read"}, {"sniproxy", "sideConn", "nextReader"},
		{"sniproxy", "sideConn", "CloseWrite"}, {"sniproxy", "sideConn", "Close"},
		{"sniproxy", "tunnel", "Read"}, {"sniproxy", "tunnel", "Write"}, {"sniproxy", "tunnel", "Close"},
		{"sniproxy", "endpointServer", "handleRead"}, {"sniproxy", "endpointServer", "handleWrite"},
		{"sniproxy", "endpointServer", "handleClose"}, {"sniproxy", "readResponse", "decodeFrom"},
		{"sniproxy", "TLSHelloConn", "Read"}, {"sniproxy", "proxy", "hostConn"}, {"netutil", "", "JoinConn"},
		{"sniproxy", "", "newConnection"},
	}
}

func genStream(repo string, fs facts) (string, error) {
	p, err := loadPkg(repo, "sniproxy")
	if err != nil {
		return "", err
	}
	w := p.fn("sideConn", "Write")
	tr := p.fn("tunnel", "Read")
	if w == nil || tr == nil {
		return "", fmt.Errorf("sideConn.Write / tunnel.Read not found")
	}
	chunk := int64(-1)
	ast.Inspect(w, func(n ast.Node) bool {
		gd, ok := n.(*ast.GenDecl)
		if !ok || gd.Tok != token.CONST {
			return true
		}
		for _, s := range gd.Specs {
			vs := s.(*ast.ValueSpec)
			if len(vs.Names) == 1 && vs.Names[0].Name == "chunk" && len(vs.Values) == 1 {
				if v, ok := evalInt(vs.Values[0], 0, p.consts()); ok {
					chunk = v
				}
			}
		}
		return true
	})
	if chunk < 0 {
		return "", fmt.Errorf("sideConn.Write: const chunk not found")
	}
	checked := false
	ast.Inspect(tr, func(n ast.Node) bool {
		is, ok := n.(*ast.IfStmt)
		if !ok {
			return true
		}
		c := strings.ReplaceAll(p.src(is.Cond), " ", "")
		if c == "len(resp.bytes)>len(buf)" || c == "len(buf)<len(resp.bytes)" {
			for _, st := range is.Body.List {
				if rs, ok := st.(*ast.ReturnStmt); ok && len(rs.Results) == 2 && p.src(rs.Results[1]) != "nil" {
					checked = true
				}
			}
		}
		return true
	})
	fs["stream.sideChunk"] = chunk
	fs["stream.tunnelReadChecked"] = checked
	return fmt.Sprintf("namespace PubModel.Gen.Stream\n/-- `const chunk` of sideConn.Write -/\ndef sideChunk : Nat := %d\n"+
		"/-- tunnel.Read returns an error when the reply is longer than the caller's buffer -/\ndef tunnelReadChecked : Bool := %v\nend PubModel.Gen.Stream\n", chunk, checked), nil
}
