package main

// Normalised hashes of the functions whose Lean models are written by hand.
// A difference from /verif/golden/hashes.json is not a violation; it escalates
// that property's correspondence run (DESIGN.md 1.1).

type tracked struct{ dir, recv, name string }

var trackedFuncs = map[string][]tracked{
	"C13": {
		{"sniproxy", "decoder", "read"}, {"sniproxy", "decoder", "u8"}, {"sniproxy", "decoder", "u64"},
		{"sniproxy", "decoder", "bytes"}, {"sniproxy", "decoder", "str"}, {"sniproxy", "decoder", "end"},
		{"sniproxy", "encoder", "u8"}, {"sniproxy", "encoder", "u64"}, {"sniproxy", "encoder", "bytes"},
		{"sniproxy", "encoder", "str"}, {"sniproxy", "remoteErr", "encodeTo"}, {"sniproxy", "remoteErr", "decodeFrom"},
		{"sniproxy", "", "decodeRemoteErr"}, {"sniproxy", "", "encodeRemoteErr"},
		{"sniproxy", "endpointServer", "startCall"}, {"sniproxy", "endpointServer", "handleRead"},
		{"sniproxy", "transport", "handleMessage"}, {"sniproxy", "endpointExchange", "encodeTo"},
		{"sniproxy", "", "sendExchangeReq"},
	},
}

func init() {
	register("_hashes", func(repo string, fs facts) (string, error) {
		pkgs := map[string]*pkg{}
		out := map[string]map[string]string{}
		for id, fns := range trackedFuncs {
			out[id] = map[string]string{}
			for _, t := range fns {
				p := pkgs[t.dir]
				if p == nil {
					var err error
					p, err = loadPkg(repo, t.dir)
					if err != nil {
						return "", err
					}
					pkgs[t.dir] = p
				}
				key := t.dir + "." + t.recv + "." + t.name
				out[id][key] = p.hash(t.recv, t.name)
			}
		}
		fs["hashes"] = out
		return "", nil
	})
}
