package main

import (
	"fmt"
	"go/ast"
	"go/token"
	"reflect"
	"strconv"
	"strings"
)

// Gen/Caco3Cache.lean: what the caco3 build cache hashes, compares and in which
// order buildNode touches the cache (C10).

func init() {
	register("Caco3Cache", genCaco3Cache)
	trackedFuncs["C10"] = []tracked{
		{"caco3", "Builder", "Build"}, {"caco3", "Builder", "buildNodes"}, {"caco3", "Builder", "buildNode"},
		{"caco3", "", "newBuildCache"}, {"caco3", "buildCache", "put"}, {"caco3", "buildCache", "get"},
		{"caco3", "buildCache", "remove"}, {"caco3", "", "buildNodeDigest"}, {"caco3", "", "makeDigest"},
		{"caco3", "", "newBuilt"}, {"caco3", "", "checkSameBuilt"}, {"caco3", "", "newFileStat"},
		{"caco3", "", "sameFileStat"}, {"caco3", "fileSet", "meta"}, {"caco3", "fileSet", "build"},
		{"caco3", "bundle", "meta"}, {"caco3", "bundle", "build"},
	}
}

// c10StructFields lists the JSON-visible fields of a struct type (a field
// tagged `json:"-"` does not reach the hashed text).
func c10StructFields(p *pkg, name string) ([]string, error) {
	for _, f := range p.files {
		for _, d := range f.Decls {
			gd, ok := d.(*ast.GenDecl)
			if !ok || gd.Tok != token.TYPE {
				continue
			}
			for _, s := range gd.Specs {
				ts := s.(*ast.TypeSpec)
				st, ok := ts.Type.(*ast.StructType)
				if !ok || ts.Name.Name != name {
					continue
				}
				var out []string
				for _, fl := range st.Fields.List {
					tag := ""
					if fl.Tag != nil {
						if t, err := strconv.Unquote(fl.Tag.Value); err == nil {
							tag = reflect.StructTag(t).Get("json")
						}
					}
					if tag == "-" {
						continue
					}
					jsonName := strings.Split(tag, ",")[0]
					for _, n := range fl.Names {
						if !n.IsExported() {
							continue
						}
						if jsonName != "" {
							out = append(out, jsonName)
						} else {
							out = append(out, n.Name)
						}
					}
				}
				return out, nil
			}
		}
	}
	return nil, fmt.Errorf("struct %s not found", name)
}

func c10CaseBody(fd *ast.FuncDecl, label string) []ast.Stmt {
	var body []ast.Stmt
	ast.Inspect(fd, func(n ast.Node) bool {
		cc, ok := n.(*ast.CaseClause)
		if !ok {
			return true
		}
		for _, e := range cc.List {
			if id, ok := e.(*ast.Ident); ok && id.Name == label {
				body = cc.Body
			}
		}
		return true
	})
	return body
}

// c10FieldsSet: keys of composite literals of type typ plus `x.F = ...`
// assignments inside the statements.
func c10FieldsSet(stmts []ast.Stmt, typ string) []string {
	var out []string
	add := func(s string) {
		for _, o := range out {
			if o == s {
				return
			}
		}
		out = append(out, s)
	}
	for _, st := range stmts {
		ast.Inspect(st, func(n ast.Node) bool {
			switch x := n.(type) {
			case *ast.CompositeLit:
				if id, ok := x.Type.(*ast.Ident); ok && id.Name == typ {
					for _, e := range x.Elts {
						if kv, ok := e.(*ast.KeyValueExpr); ok {
							if k, ok := kv.Key.(*ast.Ident); ok {
								add(k.Name)
							}
						}
					}
				}
			case *ast.AssignStmt:
				for _, l := range x.Lhs {
					if se, ok := l.(*ast.SelectorExpr); ok {
						if id, ok := se.X.(*ast.Ident); ok && id.Name == "action" {
							add(se.Sel.Name)
						}
					}
				}
			}
			return true
		})
	}
	return out
}

func c10CallName(e ast.Expr) string {
	c, ok := e.(*ast.CallExpr)
	if !ok {
		return ""
	}
	switch f := c.Fun.(type) {
	case *ast.Ident:
		return f.Name
	case *ast.SelectorExpr:
		return f.Sel.Name
	}
	return ""
}

// c10SrcDirect: the nodeSrc case hands the stat of newSrcFileStat to
// makeDigest untouched (define, check, digest, check, return).
func c10SrcDirect(p *pkg, body []ast.Stmt) bool {
	if len(body) != 5 {
		return false
	}
	a0, ok := body[0].(*ast.AssignStmt)
	if !ok || len(a0.Rhs) != 1 || c10CallName(a0.Rhs[0]) != "newSrcFileStat" || len(a0.Lhs) != 2 {
		return false
	}
	v, ok := a0.Lhs[0].(*ast.Ident)
	if !ok {
		return false
	}
	if _, ok := body[1].(*ast.IfStmt); !ok {
		return false
	}
	a2, ok := body[2].(*ast.AssignStmt)
	if !ok || len(a2.Rhs) != 1 || c10CallName(a2.Rhs[0]) != "makeDigest" {
		return false
	}
	args := a2.Rhs[0].(*ast.CallExpr).Args
	if len(args) != 3 {
		return false
	}
	last, ok := args[2].(*ast.Ident)
	if !ok || last.Name != v.Name {
		return false
	}
	if _, ok := body[3].(*ast.IfStmt); !ok {
		return false
	}
	_, ok = body[4].(*ast.ReturnStmt)
	return ok
}

func c10LeanList(xs []string) string {
	var q []string
	for _, x := range xs {
		q = append(q, leanStr(x))
	}
	return "[" + strings.Join(q, ", ") + "]"
}

func c10Bool(b bool) string {
	if b {
		return "true"
	}
	return "false"
}

// c10Hours evaluates an expression like `time.Hour * 24 * 7` to hours.
func c10Hours(e ast.Expr) (int64, bool) {
	switch x := e.(type) {
	case *ast.BinaryExpr:
		if x.Op != token.MUL {
			return 0, false
		}
		a, ok1 := c10Hours(x.X)
		b, ok2 := c10Hours(x.Y)
		return a * b, ok1 && ok2
	case *ast.BasicLit:
		v, err := strconv.ParseInt(x.Value, 0, 64)
		return v, err == nil
	case *ast.SelectorExpr:
		if id, ok := x.X.(*ast.Ident); ok && id.Name == "time" && x.Sel.Name == "Hour" {
			return 1, true
		}
	case *ast.ParenExpr:
		return c10Hours(x.X)
	}
	return 0, false
}

func genCaco3Cache(repo string, fs facts) (string, error) {
	p, err := loadPkg(repo, "caco3")
	if err != nil {
		return "", err
	}
	statFields, err := c10StructFields(p, "fileStat")
	if err != nil {
		return "", err
	}
	actionFields, err := c10StructFields(p, "buildAction")
	if err != nil {
		return "", err
	}

	// ---- buildNodeDigest
	bnd := p.fn("", "buildNodeDigest")
	if bnd == nil {
		return "", fmt.Errorf("buildNodeDigest not found")
	}
	ruleSet := c10FieldsSet(c10CaseBody(bnd, "nodeRule"), "buildAction")
	outSet := c10FieldsSet(c10CaseBody(bnd, "nodeOut"), "buildAction")
	srcDirect := c10SrcDirect(p, c10CaseBody(bnd, "nodeSrc"))

	// ---- newFileStat: fields filled from lstat
	nfs := p.fn("", "newFileStat")
	if nfs == nil {
		return "", fmt.Errorf("newFileStat not found")
	}
	var statFilled []string
	ast.Inspect(nfs, func(n ast.Node) bool {
		if cl, ok := n.(*ast.CompositeLit); ok {
			if id, ok := cl.Type.(*ast.Ident); ok && id.Name == "fileStat" {
				for _, e := range cl.Elts {
					if kv, ok := e.(*ast.KeyValueExpr); ok {
						if k, ok := kv.Key.(*ast.Ident); ok {
							statFilled = append(statFilled, k.Name)
						}
					}
				}
			}
		}
		return true
	})
	usesLstat := strings.Contains(p.src(nfs), "os.Lstat(")

	// ---- sameFileStat: fields compared
	sfs := p.fn("", "sameFileStat")
	if sfs == nil {
		return "", fmt.Errorf("sameFileStat not found")
	}
	var compared []string
	ast.Inspect(sfs, func(n ast.Node) bool {
		be, ok := n.(*ast.BinaryExpr)
		if !ok || be.Op != token.EQL {
			return true
		}
		l, ok1 := be.X.(*ast.SelectorExpr)
		r, ok2 := be.Y.(*ast.SelectorExpr)
		if ok1 && ok2 && l.Sel.Name == r.Sel.Name {
			compared = append(compared, l.Sel.Name)
		}
		return true
	})

	// ---- checkSameBuilt walks every recorded output through sameFileStat
	csb := p.fn("", "checkSameBuilt")
	if csb == nil {
		return "", fmt.Errorf("checkSameBuilt not found")
	}
	checksAllOuts := false
	ast.Inspect(csb, func(n ast.Node) bool {
		rs, ok := n.(*ast.RangeStmt)
		if !ok {
			return true
		}
		if se, ok := rs.X.(*ast.SelectorExpr); ok && se.Sel.Name == "Outs" && strings.Contains(p.src(rs.Body), "sameFileStat(") {
			checksAllOuts = true
		}
		return true
	})

	// ---- cache expiry
	nbc := p.fn("", "newBuildCache")
	if nbc == nil {
		return "", fmt.Errorf("newBuildCache not found")
	}
	expire := int64(-1)
	ast.Inspect(nbc, func(n ast.Node) bool {
		if kv, ok := n.(*ast.KeyValueExpr); ok {
			if k, ok := kv.Key.(*ast.Ident); ok && k.Name == "expire" {
				if h, ok := c10Hours(kv.Value); ok {
					expire = h
				}
			}
		}
		return true
	})
	if expire < 0 {
		return "", fmt.Errorf("newBuildCache: expire is not a product of time.Hour and literals")
	}

	// ---- buildNode: order of the cache calls around the execution
	bn := p.fn("Builder", "buildNode")
	if bn == nil {
		return "", fmt.Errorf("Builder.buildNode not found")
	}
	pos := map[string]token.Pos{}
	var order []string
	putGuarded := false
	memoFirst := false
	if len(bn.Body.List) > 0 {
		memoFirst = strings.Contains(p.src(bn.Body.List[0]), "ctx.built[n.name]") &&
			strings.Contains(p.src(bn.Body.List[0]), "return")
	}
	ast.Inspect(bn.Body, func(n ast.Node) bool {
		switch x := n.(type) {
		case *ast.IfStmt:
			cond := p.src(x.Cond)
			if strings.Contains(cond, "n.typ == nodeRule") && strings.Contains(p.src(x.Body), "ctx.cache.put(") {
				putGuarded = true
			}
		case *ast.CallExpr:
			s := p.src(x.Fun)
			var key string
			switch s {
			case "ctx.cache.get":
				key = "get"
			case "checkSameBuilt":
				key = "checkSameBuilt"
			case "ctx.cache.remove":
				key = "remove"
			case "n.rule.build":
				key = "build"
			case "newBuilt":
				key = "newBuilt"
			case "ctx.cache.put":
				key = "put"
			case "os.Remove":
				key = "clearOut"
			}
			if key != "" {
				if _, dup := pos[key]; !dup {
					pos[key] = x.Pos()
					order = append(order, key)
				}
			}
		}
		return true
	})
	// remove is reached on every miss: its `if err := ctx.cache.remove(..)` is a statement of the
	// function body itself, not nested under another condition
	removeUncond := false
	for _, st := range bn.Body.List {
		if is, ok := st.(*ast.IfStmt); ok && is.Init != nil && strings.Contains(p.src(is.Init), "ctx.cache.remove(") {
			removeUncond = true
		}
		if es, ok := st.(*ast.ExprStmt); ok && strings.Contains(p.src(es), "ctx.cache.remove(") {
			removeUncond = true
		}
	}
	// buildCache.put overwrites (Replace), buildCache.get treats an expired record as missing
	putMethod := ""
	if pf := p.fn("buildCache", "put"); pf != nil {
		ast.Inspect(pf.Body, func(n ast.Node) bool {
			if c, ok := n.(*ast.CallExpr); ok {
				if s := p.src(c.Fun); strings.HasPrefix(s, "c.cache.") {
					putMethod = strings.TrimPrefix(s, "c.cache.")
				}
			}
			return true
		})
	}
	getChecksExpiry := false
	if gf := p.fn("buildCache", "get"); gf != nil {
		src := p.src(gf.Body)
		getChecksExpiry = strings.Contains(src, "c.expire") && strings.Contains(src, ".Before(")
	}
	if _, ok := pos["build"]; !ok {
		return "", fmt.Errorf("buildNode: no call of n.rule.build")
	}
	before := func(a string) bool {
		pa, ok := pos[a]
		return ok && pa < pos["build"]
	}
	removeBefore := before("remove")
	putBefore := before("put")
	clears := before("clearOut")
	_, hasPut := pos["put"]
	hitNeedsSame := before("get") && before("checkSameBuilt")

	fs["caco3cache"] = map[string]interface{}{
		"fileStat_json_fields": statFields, "buildAction_json_fields": actionFields,
		"action_fields_set_for_rule": ruleSet, "action_fields_set_for_out": outSet,
		"src_digest_direct": srcDirect, "stat_fields_filled": statFilled, "same_stat_fields": compared,
		"expire_hours": expire, "buildNode_call_order": order,
		"remove_unconditional": removeUncond, "put_method": putMethod, "get_checks_expiry": getChecksExpiry,
	}

	var b strings.Builder
	b.WriteString("namespace PubModel.Gen.Caco3Cache\n\n")
	fmt.Fprintf(&b, "/-- JSON-visible fields of `fileStat` (hashed for a source, written into a .fileset) -/\ndef fileStatFields : List String := %s\n\n", c10LeanList(statFields))
	fmt.Fprintf(&b, "/-- fields `newFileStat` fills from `lstat` -/\ndef statFilled : List String := %s\ndef usesLstat : Bool := %s\n\n", c10LeanList(statFilled), c10Bool(usesLstat))
	fmt.Fprintf(&b, "/-- `buildNodeDigest`, nodeSrc: the stat goes into makeDigest untouched -/\ndef srcDigestDirect : Bool := %s\n\n", c10Bool(srcDirect))
	fmt.Fprintf(&b, "/-- JSON-visible fields of `buildAction` -/\ndef actionFields : List String := %s\n\n", c10LeanList(actionFields))
	fmt.Fprintf(&b, "/-- fields of the action that `buildNodeDigest` sets for a rule node / an output node -/\ndef actionSetForRule : List String := %s\ndef actionSetForOut : List String := %s\n\n", c10LeanList(ruleSet), c10LeanList(outSet))
	fmt.Fprintf(&b, "/-- fields `sameFileStat` compares -/\ndef sameStatFields : List String := %s\ndef checkSameBuiltWalksOuts : Bool := %s\n\n", c10LeanList(compared), c10Bool(checksAllOuts))
	fmt.Fprintf(&b, "/-- cache expiry in hours -/\ndef expireHours : Nat := %d\n\n", expire)
	fmt.Fprintf(&b, "/-- first occurrences of the cache calls in `buildNode`, in source order -/\ndef buildNodeOrder : List String := %s\n", c10LeanList(order))
	fmt.Fprintf(&b, "def memoCheckedFirst : Bool := %s\ndef hitNeedsSameBuilt : Bool := %s\n", c10Bool(memoFirst), c10Bool(hitNeedsSame))
	fmt.Fprintf(&b, "def removeBeforeBuild : Bool := %s\ndef putBeforeBuild : Bool := %s\ndef hasPut : Bool := %s\n", c10Bool(removeBefore), c10Bool(putBefore), c10Bool(hasPut))
	fmt.Fprintf(&b, "def putOnlyForRules : Bool := %s\ndef clearsStaleOuts : Bool := %s\n", c10Bool(putGuarded), c10Bool(clears))
	fmt.Fprintf(&b, "/-- `remove` is a statement of buildNode's body (reached on every miss, live record or not) -/\ndef removeUnconditional : Bool := %s\n", c10Bool(removeUncond))
	fmt.Fprintf(&b, "/-- the KV method `buildCache.put` stores with -/\ndef putMethod : String := %s\n", leanStr(putMethod))
	fmt.Fprintf(&b, "/-- `buildCache.get` answers not-found for a record older than the expiry -/\ndef getChecksExpiry : Bool := %s\n", c10Bool(getChecksExpiry))
	b.WriteString("\nend PubModel.Gen.Caco3Cache\n")
	return b.String(), nil
}
