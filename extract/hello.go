package main

import (
	"fmt"
	"go/ast"
)

// Gen/Hello.lean: capacity of the bufio.Reader that TLSHelloConn peeks through.

func init() {
	register("Hello", genHello)
	trackedFuncs["C14"] = []tracked{
		{"sniproxy", "", "NewTLSHelloConn"}, {"sniproxy", "TLSHelloConn", "HelloInfo"},
		{"sniproxy", "TLSHelloConn", "Read"}, {"sniproxy", "", "nameSinkTLSConfig"},
		{"sniproxy", "headerConn", "Read"}, {"sniproxy", "headerConn", "Write"},
	}
}

func genHello(repo string, fs facts) (string, error) {
	p, err := loadPkg(repo, "sniproxy")
	if err != nil {
		return "", err
	}
	fd := p.fn("", "NewTLSHelloConn")
	if fd == nil {
		return "", fmt.Errorf("NewTLSHelloConn not found")
	}
	consts := p.consts()
	size := int64(-1)
	ast.Inspect(fd, func(n ast.Node) bool {
		c, ok := n.(*ast.CallExpr)
		if !ok {
			return true
		}
		switch p.src(c.Fun) {
		case "bufio.NewReader":
			size = 4096 // bufio's defaultBufSize
		case "bufio.NewReaderSize":
			if len(c.Args) == 2 {
				if v, ok := evalInt(c.Args[1], 0, consts); ok {
					size = v
					if size < 16 {
						size = 16 // bufio's minimum
					}
				}
			}
		}
		return true
	})
	if size < 0 {
		return "", fmt.Errorf("NewTLSHelloConn: bufio reader construction not recognised")
	}
	fs["hello.peekBuf"] = size
	return fmt.Sprintf("namespace PubModel.Gen.Hello\n/-- capacity of the peek buffer -/\ndef peekBuf : Nat := %d\nend PubModel.Gen.Hello\n", size), nil
}
