#!/usr/bin/python3
"""Refresh the generated parts of DESIGN.md (seed table)."""
import os, re, subprocess
V = os.path.dirname(os.path.dirname(os.path.abspath(__file__)))
p = os.path.join(V, "DESIGN.md")
s = open(p).read()
tab = subprocess.run(["python3", os.path.join(V, "tools", "mkseedtable.py")], capture_output=True, text=True).stdout
s = re.sub(r"<!-- SEEDTABLE:BEGIN -->.*?<!-- SEEDTABLE:END -->", lambda m: "<!-- SEEDTABLE:BEGIN -->\n" + tab + "<!-- SEEDTABLE:END -->", s, flags=re.S)
open(p, "w").write(s)
