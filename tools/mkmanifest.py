#!/usr/bin/python3
"""Regenerate MANIFEST.json from props.json (single source of per-property text)."""
import json, os
V = os.path.dirname(os.path.dirname(os.path.abspath(__file__)))
props = json.load(open(os.path.join(V, "props.json")))
import glob
for fn in sorted(glob.glob(os.path.join(V, "props.d", "*.json"))):
    props[os.path.basename(fn)[:-5]] = json.load(open(fn))
allp = [json.loads(l) for l in open(os.path.join(V, "properties.jsonl"))]
claimed = set(open(os.path.join(V, "claimed.txt")).read().split())
def hook_commits():
    import subprocess
    try:
        out = subprocess.run(["git", "-C", "/repo", "log", "--format=%h %s"], capture_output=True, text=True).stdout
        hs = [l.split()[0] for l in out.splitlines() if l.split(" ", 1)[1].startswith("verif:")]
        if hs:
            json.dump({"source_commits": hs[::-1]}, open(os.path.join(V, "hooks.json"), "w"))
            return hs[::-1]
    except Exception:
        pass
    return json.load(open(os.path.join(V, "hooks.json")))["source_commits"]
checks, na = [], []
for p in allp:
    pid = p["id"]
    P = props.get(pid)
    if not P or pid not in claimed:
        na.append({"property_id": pid, "reason": (P or {}).get("na_reason", "not yet built: no model, theorems and correspondence committed for this property so far (the technique applies; see DESIGN.md section 5)")})
        continue
    checks.append({
        "property_id": pid,
        "quick_cmd": "./check %s quick" % pid,
        "thorough_cmd": "./check %s thorough" % pid,
        "evidence_file": "/verif/evidence/%s.json" % pid,
        "replay_cmd_template": "./check %s --replay {path}" % pid,
        "engine": "lean4-proof+correspondence",
        "level_claimed": {"category": "proof", "text": P["explanation"], "design_ref": P.get("design_ref", "DESIGN.md section 5, %s" % pid)},
        "level_note": "Trusted: " + "; ".join(P.get("trusted_base", [])) + ". Assumes: " + "; ".join(P.get("assumptions", [])) + (". Partial: " + P["partial"] if P.get("partial") else ""),
        "technique": P.get("technique", "Lean 4 theorems over a model tied to the source by regenerated facts and a differential correspondence run"),
    })
m = {
    "version": 1,
    "setup_cmd": "./setup.sh",
    "hooks": {
        "guard": "verif",
        "enable": "go build -tags verif (the harness module /verif/harness replaces shanhu.io/g with /repo)",
        "baseline_off_cmd": "cd /repo && go test -mod=mod -vet=off -count=1 ./...",
        "source_commits": hook_commits(),
        "add_only": True,
    },
    "engines": [{"name": "lean4-proof+correspondence", "path": "/verif/check",
                 "serves_properties": [c["property_id"] for c in checks],
                 "kind_free_text": "Lean 4.33 theorems (lake build + #print axioms audit, leanchecker in thorough) about a model whose data is regenerated from /repo by a go/ast extractor and whose hand-written part is run against the real code by a Go harness (-tags verif) through a compiled Lean driver"}],
    "checks": checks,
    "not_applicable": na,
    "notes": "All checks: ./check <ID> quick|thorough; honours VERIF_SEED and VERIF_TIER. known_findings.txt lists recorded and repaired defects.",
}
json.dump(m, open(os.path.join(V, "MANIFEST.json"), "w"), indent=1)
print("claimed:", [c["property_id"] for c in checks])
