#!/usr/bin/python3
"""tools/seedcheck.py <ID> [k ...] — confirm a seeded change and run the check against it.

For /tmp/seed/<ID>.out/change<k>.diff + demo<k>: in a scratch copy of /repo's HEAD
(1) the patch applies and the touched packages build, (2) their existing tests pass,
(3) the demo fails with the patch and passes without it, (4) ./check <ID> quick against
the patched copy reports a VIOLATION.  Confirmed changes are stored in /verif/seeded/<ID>-<k>/.
"""
import json, os, re, shutil, subprocess, sys, tempfile, time

ENV = dict(os.environ, GOFLAGS="-mod=mod", GOPROXY="off", GOSUMDB="off", GOTOOLCHAIN="local")


def sh(cmd, cwd=None, timeout=1800, env=ENV):
    try:
        p = subprocess.run(cmd, cwd=cwd, env=env, shell=isinstance(cmd, str), stdout=subprocess.PIPE,
                           stderr=subprocess.STDOUT, text=True, errors="replace", timeout=timeout)
        return p.returncode, p.stdout
    except subprocess.TimeoutExpired as e:
        return 124, (e.stdout or b"").decode(errors="replace") if isinstance(e.stdout, bytes) else (e.stdout or "")


def fresh(patch=None):
    d = tempfile.mkdtemp(prefix="seedchk-")
    sh("git -C /repo archive HEAD | tar -x -C %s" % d)
    if patch:
        rc, out = sh(["patch", "-p1", "-s", "-i", patch], cwd=d)
        if rc != 0:
            shutil.rmtree(d)
            return None, out
    return d, ""


def place_demo(d, demo, pkgs):
    """returns (run command, cwd) after placing the demo in tree d"""
    if os.path.isdir(demo):
        dst = os.path.join(d, "cmd", "zz_" + os.path.basename(demo))
        shutil.copytree(demo, dst)
        return ["go", "run", "."], dst
    src = open(demo).read()
    m = re.search(r"^package\s+(\w+)", src, re.M)
    pkg = m.group(1) if m else ""
    base = pkg[:-5] if pkg.endswith("_test") else pkg
    # a hint in the header comment wins: a path like sniproxy/ or ./pisces
    hint = None
    for line in src.split("\n")[:25]:
        mm = re.search(r"(?:/tmp/seed/C\d\d/|\./|\s)((?:[a-z0-9_]+/)*[a-z0-9_]+)/(?:demo\d|zz_|[a-z0-9_]*_test\.go)", line)
        if mm and os.path.isdir(os.path.join(d, mm.group(1))):
            hint = mm.group(1)
            break
    cand = [hint] if hint else []
    cand += [p for p in pkgs if os.path.basename(p) == base]
    for root, dirs, files in os.walk(d):
        if os.path.basename(root) == base and any(f.endswith(".go") for f in files):
            cand.append(os.path.relpath(root, d))
    cand += pkgs
    for c in cand:
        if c and os.path.isdir(os.path.join(d, c)):
            dst = os.path.join(d, c, "zz_" + os.path.basename(demo))
            shutil.copy(demo, dst)
            tests = re.findall(r"^func (Test\w+)", src, re.M)
            run = "^(" + "|".join(tests) + ")$" if tests else "."
            return ["go", "test", "-vet=off", "-count=1", "-run", run, "."], os.path.join(d, c)
    return None, None


def main():
    args = [a for a in sys.argv[1:] if not a.startswith("--")]
    rnd = 1
    for a in sys.argv:
        if a.startswith("--round"):
            rnd = int(a[len("--round"):])
    pid = args[0]
    ks = args[1:] or ["1", "2"]
    out_dir = "/tmp/seed/%s.out%s" % (pid, str(rnd) if rnd > 1 else "")
    for k in ks:
        patch = os.path.join(out_dir, "change%s.diff" % k)
        demo = None
        for cand in ("demo%s_test.go" % k, "demo%s" % k, "demo%s/main.go" % k):
            p = os.path.join(out_dir, cand)
            if os.path.exists(p):
                demo = os.path.dirname(p) if cand.endswith("main.go") else p
                break
        res = {"property": pid, "k": k, "patch": patch, "demo": demo}
        if not os.path.exists(patch) or not demo:
            print(pid, k, "missing patch or demo")
            continue
        files = re.findall(r"^\+\+\+ b/(\S+)", open(patch).read(), re.M)
        pkgs = sorted({os.path.dirname(f) for f in files if f.endswith(".go")})
        res["files"] = files
        d1, err = fresh(patch)
        if d1 is None:
            print(pid, k, "PATCH DOES NOT APPLY:", err[:200])
            continue
        d0, _ = fresh()
        try:
            rc, out = sh(["go", "build"] + ["./" + p + "/..." for p in pkgs], cwd=d1)
            res["builds"] = rc == 0
            rc, out = sh(["go", "test", "-vet=off", "-count=1"] + ["./" + p + "/..." for p in pkgs], cwd=d1)
            if rc != 0:  # the repository has a timing-sensitive test (TestServer_kick); one retry
                rc, out = sh(["go", "test", "-vet=off", "-count=1"] + ["./" + p + "/..." for p in pkgs], cwd=d1)
            res["existing_tests_pass"] = rc == 0
            if rc != 0:
                res["existing_tests_out"] = out[-600:]
            cmd, cwd1 = place_demo(d1, demo, pkgs)
            cmd0, cwd0 = place_demo(d0, demo, pkgs)
            if cmd is None:
                res["demo"] = "could not place"
            else:
                rc1, o1 = sh(cmd, cwd=cwd1, timeout=600)
                rc0, o0 = sh(cmd0, cwd=cwd0, timeout=600)
                if (rc1 == 0 or rc0 != 0) and cmd[:2] == ["go", "test"]:
                    # some demonstrations use the verif schedule points
                    cmd = cmd[:2] + ["-tags", "verif"] + cmd[2:]
                    cmd0 = cmd
                    rc1, o1 = sh(cmd, cwd=cwd1, timeout=600)
                    rc0, o0 = sh(cmd0, cwd=cwd0, timeout=600)
                res["demo_fails_with_change"] = rc1 != 0
                res["demo_passes_without"] = rc0 == 0
                res["demo_cmd"] = " ".join(cmd) + "  (in " + os.path.relpath(cwd1, d1) + ")"
                if rc0 != 0:
                    res["demo_without_out"] = o0[-500:]
                res["demo_with_out"] = o1[-300:]
        finally:
            shutil.rmtree(d1, ignore_errors=True)
            shutil.rmtree(d0, ignore_errors=True)
        ok = res.get("builds") and res.get("existing_tests_pass") and res.get("demo_fails_with_change") and res.get("demo_passes_without")
        res["confirmed"] = bool(ok)
        if ok:
            t0 = time.time()
            rc, out = sh(["/verif/tools/mut.sh", pid, patch], timeout=3600, env=dict(ENV, LINES_OUT="6"))
            res["check_seconds"] = round(time.time() - t0)
            res["check_output"] = out[:900]
            res["detected"] = "VIOLATION" in out
            res["detected_with_input"] = any("VIOLATION" in l and "no-failing-input-found" not in l for l in out.split("\n"))
            dst = "/verif/seeded/%s-%s" % (pid, int(k) + 2 * (rnd - 1))
            os.makedirs(dst, exist_ok=True)
            shutil.copy(patch, os.path.join(dst, "patch.diff"))
            if os.path.isdir(demo):
                shutil.copytree(demo, os.path.join(dst, "demo"), dirs_exist_ok=True)
            else:
                shutil.copy(demo, os.path.join(dst, os.path.basename(demo)))
            md = os.path.join(out_dir, "change%s.md" % k)
            needs = open(md).read() if os.path.exists(md) else ""
            meta = {"property": pid, "what_it_needs_to_manifest": needs[:1500], "files": files,
                    "confirmed": {"builds": True, "existing_tests_pass": True, "demo_fails_with_change": True,
                                  "demo_passes_without": True, "demo_cmd": res["demo_cmd"]},
                    "what_i_ran": ["git -C /repo archive HEAD | tar -x -C <scratch>; patch -p1 < patch.diff",
                                   "go build / go test -vet=off -count=1 of " + ", ".join(pkgs),
                                   res["demo_cmd"] + " with and without the patch",
                                   "VERIF_REPO=<scratch> ./check %s quick" % pid],
                    "check": {"detected": res["detected"], "with_failing_input": res["detected_with_input"],
                              "seconds": res["check_seconds"], "output": res["check_output"]}}
            json.dump(meta, open(os.path.join(dst, "meta.json"), "w"), indent=1)
        print(json.dumps({x: res[x] for x in res if x not in ("check_output", "patch", "demo")}, indent=None)[:900])
        if ok:
            print("   CHECK:", res["check_output"][:500].replace("\n", " | "))


if __name__ == "__main__":
    main()
