#!/usr/bin/python3
"""Print the markdown table of seeded changes (DESIGN.md 0.7) from seeded/*/meta.json."""
import glob, json, os, re
V = os.path.dirname(os.path.dirname(os.path.abspath(__file__)))
hist = json.load(open(os.path.join(V, "seeded", "HISTORY.json")))
print("| change | files | needs | reported by `./check` as | first run |")
print("|---|---|---|---|---|")
for d in sorted(glob.glob(os.path.join(V, "seeded", "C*-*"))):
    m = json.load(open(os.path.join(d, "meta.json")))
    name = os.path.basename(d)
    c = m["check"]
    lines = [l.strip() for l in c["output"].split("\n") if l.strip() and not l.startswith(("VIOLATION", "KNOWN", "OK"))]
    what = (lines[0] if lines else "").replace("|", "/")[:110]
    needs = m["what_it_needs_to_manifest"].replace("\n", " ")
    first = m["what_it_needs_to_manifest"].strip().split("\n")[0]
    first = re.sub(r"^#+\s*(?:[Cc]hange\s*\d+\s*[—:-]*\s*)?", "", first)
    needs = first.replace("|", "/")[:150]
    st = "VIOLATION" if c["detected"] else "**missed**"
    if c["detected"] and not c["with_failing_input"]:
        st += " (no-failing-input-found)"
    print("| %s | %s | %s | %s: %s | %s |" % (name, ", ".join(os.path.basename(f) for f in m["files"]), needs, st, what,
                                         hist.get(name, {}).get("first", "caught")))
