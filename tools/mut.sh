#!/bin/bash
# tools/mut.sh <ID> <patch.diff> [tier]  — run a check against a scratch copy of /repo with a patch applied.
id=$1; patch=$2; tier=${3:-quick}
d=$(mktemp -d /tmp/mut-XXXXXX)
git -C /repo archive HEAD | tar -x -C $d
if ! (cd $d && patch -p1 -s < "$patch"); then echo "patch failed"; rm -rf $d; exit 2; fi
(cd /verif && VERIF_REPO=$d timeout 3000 ./check $id $tier 2>&1 | cut -c1-260 | head -${LINES_OUT:-4})
rm -rf $d
