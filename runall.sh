#!/bin/bash
# Run the quick (or given) tier of every claimed check in parallel and summarise.
cd "$(dirname "$0")"
tier=${1:-quick}
ids=$(python3 -c "import json;print(' '.join(c['property_id'] for c in json.load(open('MANIFEST.json'))['checks']))")
mkdir -p .build/runall
for id in $ids; do
  ( ./check $id $tier > .build/runall/$id.log 2>&1; echo "$id rc=$?" >> .build/runall/summary.$$ ) &
done
wait
sort .build/runall/summary.$$; rm -f .build/runall/summary.$$
grep -h "VIOLATION\|KNOWN-FINDING" .build/runall/*.log | cut -c1-300
