#!/bin/bash
# setup_cmd: build everything from files on disk, offline.
set -e
cd "$(dirname "$0")"
export GOFLAGS=-mod=mod GOPROXY=off GOSUMDB=off GOTOOLCHAIN=local
mkdir -p .build evidence replays lean/PubModel/Gen
(cd extract && go build -o ../.build/extract .)
./.build/extract -repo "${VERIF_REPO:-/repo}" -out lean/PubModel/Gen -facts .build/facts.json || true
cp "${VERIF_REPO:-/repo}/go.sum" harness/go.sum
ids=$(python3 -c "import json;print(' '.join(c['property_id'] for c in json.load(open('MANIFEST.json'))['checks']))")
cd lean
for id in $ids; do
  lid=$(echo "$id" | tr 'A-Z' 'a-z')
  t="PubModel.$id.Theorems"
  if [ -f "Drv/$id.lean" ]; then t="$t drv_$lid"; fi
  lake build $t 2>&1 | grep -v '^trace' | tail -3 || true
done
cd ../harness
for id in $ids; do
  lid=$(echo "$id" | tr 'A-Z' 'a-z')
  if [ -d "$lid" ]; then go build -tags verif -o /dev/null "./$lid" || true; fi
done
echo setup done
